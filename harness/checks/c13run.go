package checks

// C13: oracle (every view of every version against the reference model), worker and BFS driver.

import (
	"encoding/json"
	"fmt"
	"os"
	"sort"
	"time"

	"verif/vlib"
	"verif/vsrv"
)

func init() {
	vlib.Register("C13", "model_checking", runC13)
	vlib.Workers["c13"] = c13Worker
}

var c13IndexTypes = []string{"PostSyn", "PreSyn", "Gap", "Note", "AllSyn"}

func c13Synaptic(kind string) bool { return kind == "PostSyn" || kind == "PreSyn" || kind == "Gap" }

func c13ParseList(r vsrv.Resp) ([]annElem, bool) {
	if r.Code != 200 {
		return nil, false
	}
	var list []annElem
	if err := json.Unmarshal(r.Body, &list); err != nil {
		return nil, false
	}
	return list, true
}

func c13ParseBlocks(r vsrv.Resp) (map[string][]annElem, bool) {
	if r.Code != 200 {
		return nil, false
	}
	var m map[string][]annElem
	if err := json.Unmarshal(r.Body, &m); err != nil {
		return nil, false
	}
	return m, true
}

func c13Canon(e annElem, withRels bool) string {
	if !withRels {
		e.Rels = nil
	}
	return e.canon()
}

// c13Compare compares a returned element list with the wanted set. kind is "" when they agree, otherwise the class of
// the first disagreement: duplicate, missing, extra, stale-rel (only relationships differ), differs.
func c13Compare(got []annElem, want map[[3]int]annElem, withRels bool) (kind, detail string) {
	seen := map[[3]int]annElem{}
	for _, e := range got {
		if _, dup := seen[e.Pos]; dup {
			return "duplicate", fmt.Sprintf("position %v is returned twice", e.Pos)
		}
		seen[e.Pos] = e
	}
	var ps [][3]int
	for p := range want {
		ps = append(ps, p)
	}
	sort.Slice(ps, func(i, j int) bool { return fmt.Sprint(ps[i]) < fmt.Sprint(ps[j]) })
	for _, p := range ps {
		if _, ok := seen[p]; !ok {
			return "missing", fmt.Sprintf("element %s is not returned (returned: %s)", c13Canon(want[p], withRels), c13List(got, withRels))
		}
	}
	for _, e := range got {
		if _, ok := want[e.Pos]; !ok {
			return "extra", fmt.Sprintf("element %s is returned but should not be (wanted: %s)", c13Canon(e, withRels), c13Want(want, withRels))
		}
	}
	for _, p := range ps {
		g, w := seen[p], want[p]
		if c13Canon(g, withRels) != c13Canon(w, withRels) {
			if c13Canon(g, false) == c13Canon(w, false) {
				return "stale-rel", fmt.Sprintf("element at %v has relationships %v, wanted %v", p, g.Rels, w.Rels)
			}
			return "differs", fmt.Sprintf("element returned as %s, wanted %s", c13Canon(g, withRels), c13Canon(w, withRels))
		}
	}
	return "", ""
}

func c13List(l []annElem, withRels bool) string {
	s := make([]string, len(l))
	for i, e := range l {
		s[i] = c13Canon(e, withRels)
	}
	sort.Strings(s)
	return fmt.Sprint(s)
}

func c13Want(m map[[3]int]annElem, withRels bool) string {
	var l []annElem
	for _, e := range m {
		l = append(l, e)
	}
	return c13List(l, withRels)
}

// check compares every view of every version with the model. Keys are "<view>:<kind>" (+"@parent" for a version other
// than the one being edited); at most one violation per view family and version.
func (w *c13World) check() (viols []c13Viol) {
	for vi, ver := range w.vers {
		u := w.uuids[vi]
		suffix := ""
		if vi != w.leaf {
			suffix = "@parent"
		}
		reported := map[string]bool{}
		bad := func(view, kind, f string, a ...interface{}) {
			if reported[view] {
				return
			}
			reported[view] = true
			viols = append(viols, c13Viol{Key: view + ":" + kind + suffix, What: fmt.Sprintf("version %d of %d: ", vi, len(w.vers)) + fmt.Sprintf(f, a...)})
		}
		get := func(path string) vsrv.Resp { w.reads++; return vsrv.Get("node/" + u + "/" + path) }

		// which body every menu position sits on: the reference label model, cross-checked against the voxels the labelmap
		// returns (GET raw of the whole model volume; that read path is the subject of C08 and C14)
		truth := map[[3]int]uint64{}
		for _, p := range c13Pos {
			truth[p] = ver.bodyAt(p)
		}
		for p := range ver.elems { // elements outside the menu (bulk block ingestion)
			truth[p] = ver.bodyAt(p)
		}
		{
			w.reads++
			L, r := lmGetRaw(u, "lm", [3]int{c13X0, 0, 0}, [3]int{c13NX, c13NY, c13NZ}, false, 0)
			if L == nil {
				bad("labelmap", "raw-read-error", "GET lm/raw of the model volume: %s", r)
			} else {
				for i := range L.v {
					if want := ver.body(ver.sv[i]); L.v[i] != want {
						bad("labelmap", "label-model-mismatch", "labelmap voxel #%d (x=%d,y=%d,z=%d) has body %d, the reference label model says %d", i, i%c13NX+c13X0, (i/c13NX)%c13NY, i/(c13NX*c13NY), L.v[i], want)
						break
					}
				}
			}
		}
		all := ver.elems

		// block views
		blockView := func(name string, r vsrv.Resp, want map[[3]int]annElem) {
			m, ok := c13ParseBlocks(r)
			if !ok {
				bad("block-view", "read-error", "%s: %s", name, r)
				return
			}
			var flat []annElem
			for k, l := range m {
				for _, e := range l {
					if c13BlockKey(c13Block(e.Pos)) != k {
						bad("block-view", "wrong-block", "%s lists element %v under block %s", name, e.Pos, k)
					}
					flat = append(flat, e)
				}
			}
			if kind, d := c13Compare(flat, want, true); kind != "" {
				bad("block-view", kind, "%s: %s", name, d)
			}
		}
		rAll := get("ann/all-elements")
		blockView("all-elements", rAll, all)
		blockView("blocks (everything)", get("ann/blocks/96_32_80/-48_-16_0"), all)
		{
			want := map[[3]int]annElem{}
			for p, e := range all {
				if b := c13Block(p); b == [3]int{0, 0, 0} || b == [3]int{1, 0, 0} {
					want[p] = e
				}
			}
			blockView("blocks (blocks 0 and 1)", get("ann/blocks/20_4_4/10_2_2"), want)
		}
		// scan agrees with all-elements
		{
			var sc, sk, sb struct {
				N int `json:"num kv pairs"`
				E int `json:"num empty blocks"`
			}
			r1, r2, r3 := get("ann/scan"), get("ann/scan?keysOnly=true"), get("ann/scan?byCoord=true")
			e1, e2, e3 := json.Unmarshal(r1.Body, &sc), json.Unmarshal(r2.Body, &sk), json.Unmarshal(r3.Body, &sb)
			m, ok := c13ParseBlocks(rAll)
			blocksWith := map[[3]int]bool{}
			for p := range all {
				blocksWith[c13Block(p)] = true
			}
			nonEmpty := len(blocksWith)
			switch {
			case r1.Code != 200 || r2.Code != 200 || r3.Code != 200 || e1 != nil || e2 != nil || e3 != nil:
				bad("scan", "read-error", "scan: %s / %s / %s", r1, r2, r3)
			case ok && sc.N-sc.E != len(m):
				bad("scan", "differs", "scan reports %d stored blocks (%d empty), all-elements returns %d blocks", sc.N, sc.E, len(m))
			case sk.N != sc.N || sb.N != sc.N:
				bad("scan", "differs", "scan reports %d blocks, with keysOnly %d, with byCoord %d", sc.N, sk.N, sb.N)
			case sc.N < nonEmpty:
				bad("scan", "differs", "scan reports %d blocks, the model has elements in %d blocks", sc.N, nonEmpty)
			}
		}
		// region views
		for _, box := range [][2][3]int{
			{{-48, -16, 0}, {96, 32, 80}}, // everything
			{{15, 8, 8}, {2, 1, 1}},       // the two voxels at the block border
			{{-32, 0, 0}, {32, 16, 16}},   // negative half of the label volume
			{{0, 0, 0}, {16, 16, 16}},     // exactly block (0,0,0)
			{{-41, -6, 69}, {3, 3, 3}},    // around the far-away point
			{{-16, 0, 0}, {16, 4, 16}},    // a slab of block (-1,0,0) that contains no menu position
			{{0, 2, 0}, {8, 8, 8}},        // part of block (0,0,0): contains one menu position, excludes three
		} {
			off, size := box[0], box[1]
			want := map[[3]int]annElem{}
			for p, e := range all {
				in := true
				for d := 0; d < 3; d++ {
					if p[d] < off[d] || p[d] >= off[d]+size[d] {
						in = false
					}
				}
				if in {
					want[p] = e
				}
			}
			name := fmt.Sprintf("elements/%d_%d_%d/%d_%d_%d", size[0], size[1], size[2], off[0], off[1], off[2])
			r := get("ann/" + name)
			l, ok := c13ParseList(r)
			if !ok {
				bad("region-view", "read-error", "%s: %s", name, r)
			} else if kind, d := c13Compare(l, want, true); kind != "" {
				bad("region-view", kind, "%s: %s", name, d)
			}
		}
		// tag views
		for _, t := range append(append([]string{}, c13Tags...), "unused") {
			want := map[[3]int]annElem{}
			for p, e := range all {
				if c13HasTag(e, t) {
					want[p] = e
				}
			}
			for _, rel := range []bool{false, true} {
				name := "tag/" + t
				if rel {
					name += "?relationships=true"
				}
				r := get("ann/" + name)
				l, ok := c13ParseList(r)
				if !ok {
					bad("tag-view", "read-error", "%s: %s", name, r)
				} else if kind, d := c13Compare(l, want, rel); kind != "" {
					bad("tag-view", kind, "%s: %s", name, d)
				}
			}
		}
		// label views
		lset := map[uint64]bool{999: true}
		for l := range w.ever {
			lset[l] = true
		}
		for _, l := range truth {
			if l != 0 {
				lset[l] = true
			}
		}
		labels := sortedU64(lset)
		for _, l := range labels {
			want := map[[3]int]annElem{}
			for p, e := range all {
				if truth[p] == l {
					want[p] = e
				}
			}
			for _, rel := range []bool{false, true} {
				name := fmt.Sprintf("label/%d", l)
				if rel {
					name += "?relationships=true"
				}
				r := get("ann/" + name)
				lst, ok := c13ParseList(r)
				if !ok {
					bad("label-view", "read-error", "%s: %s", name, r)
				} else if kind, d := c13Compare(lst, want, rel); kind != "" {
					bad("label-view", kind, "%s (elements on body %d): %s", name, l, d)
				}
			}
		}
		// per-body counts
		want := map[string]map[uint64]int{}
		for _, it := range c13IndexTypes {
			want[it] = map[uint64]int{}
		}
		for p, e := range all {
			l := truth[p]
			if l == 0 {
				continue
			}
			if _, ok := want[e.Kind]; ok {
				want[e.Kind][l]++
			}
			if c13Synaptic(e.Kind) {
				want["AllSyn"][l]++
			}
		}
		for _, it := range c13IndexTypes {
			for _, l := range labels {
				r := get(fmt.Sprintf("lsz/count/%d/%s", l, it))
				var m map[string]uint64
				json.Unmarshal(r.Body, &m)
				if n, ok := m[it]; r.Code != 200 || !ok || m["Label"] != l {
					bad("labelsz", "read-error", "count/%d/%s: %s", l, it, r)
				} else if int(n) != want[it][l] {
					bad("labelsz", "differs", "count/%d/%s = %d, the elements on body %d give %d", l, it, n, l, want[it][l])
				}
			}
			{
				w.reads++
				r := vsrv.Do("GET", "node/"+u+"/lsz/counts/"+it, lmJSONList(labels))
				var lst []map[string]uint64
				json.Unmarshal(r.Body, &lst)
				if r.Code != 200 || len(lst) != len(labels) {
					bad("labelsz", "read-error", "counts/%s: %s", it, r)
				} else {
					for i, m := range lst {
						if m["Label"] != labels[i] || int(m[it]) != want[it][labels[i]] {
							bad("labelsz", "differs", "counts/%s entry %v, the elements on body %d give %d", it, m, labels[i], want[it][labels[i]])
						}
					}
				}
			}
			type ls struct {
				Label uint64
				Size  int
			}
			rank := func(name string, min int, firstOnly bool) {
				r := get("lsz/" + name)
				var lst []ls
				if err := json.Unmarshal(r.Body, &lst); r.Code != 200 || err != nil {
					bad("labelsz", "read-error", "%s: %s", name, r)
					return
				}
				exp := map[uint64]int{}
				max := 0
				for l, n := range want[it] {
					if n >= min && n > 0 {
						exp[l] = n
					}
					if n > max {
						max = n
					}
				}
				got := map[uint64]int{}
				prev := -1
				for _, x := range lst {
					if prev >= 0 && x.Size > prev {
						bad("labelsz", "order", "%s is not in descending order: %s", name, r)
					}
					prev = x.Size
					if x.Size == 0 {
						continue // a label listed with size 0 carries no information
					}
					if _, dup := got[x.Label]; dup {
						bad("labelsz", "duplicate", "%s lists label %d twice: %s", name, x.Label, r)
					}
					got[x.Label] = x.Size
				}
				if firstOnly {
					if len(exp) == 0 && len(got) == 0 {
						return
					}
					if len(got) != 1 || len(exp) == 0 {
						bad("labelsz", "differs", "%s = %s, the elements give %v", name, r, exp)
						return
					}
					for l, n := range got {
						if n != max || exp[l] != n {
							bad("labelsz", "differs", "%s = %s, the elements give %v", name, r, exp)
						}
					}
					return
				}
				if fmt.Sprint(got) != fmt.Sprint(exp) {
					bad("labelsz", "differs", "%s = %s, the elements give %v", name, r, exp)
				}
			}
			rank("top/50/"+it, 1, false)
			rank("threshold/1/"+it, 1, false)
			if it == "AllSyn" {
				// these two stop the server's range scan early, which strands a goroutine in the store (see c13Quiesce);
				// they are prefixes / filters of the listing above, so one index type suffices
				rank("top/1/"+it, 1, true)
				rank("threshold/2/"+it, 2, false)
			}
		}
	}
	return
}

// ---------------- worker ----------------

type c13Job struct {
	Path     []c13Op `json:"path"`
	Expand   bool    `json:"expand"`
	Thorough bool    `json:"thorough"`
	Part     int     `json:"part"`  // expand only the operations i of the alphabet with i % Parts == Part
	Parts    int     `json:"parts"` // (0: all)
}

type c13Succ struct {
	Op    c13Op  `json:"op"`
	Canon string `json:"canon"`
	Code  int    `json:"code"`
	Class string `json:"class"`
	Final bool   `json:"final"` // not to be extended
}

type c13Result struct {
	Viol    []c13Viol `json:"viol"`
	Succ    []c13Succ `json:"succ"`
	Trans   int       `json:"trans"`
	Reads   int       `json:"reads"`
	Refused int       `json:"refused"`
	Classes []string  `json:"classes"`
}

func c13JSON(r c13Result) string {
	b, _ := json.Marshal(r)
	return string(b)
}

// step applies one operation and evaluates the oracle; keys are "<operation class>/<view>:<kind>".
func (w *c13World) step(op c13Op) (code int, class string, viols []c13Viol) {
	code, desc, class, vs := w.apply(op)
	viols = append(viols, vs...)
	if len(vs) > 0 && w.terminal {
		return // server error or harness fault: the views are not compared against a model that cannot know the outcome
	}
	for _, v := range w.check() {
		v.Key = class + "/" + v.Key
		if code >= 400 {
			v.What += " [after refused " + op.String() + " -> " + desc + "]"
		} else {
			v.What += " [after " + op.String() + " -> " + desc + "]"
		}
		viols = append(viols, v)
	}
	return
}

func c13Worker(args []string) int {
	dir, err := mkTemp("c13")
	if err != nil {
		return 1
	}
	defer rmAll(dir)
	if err := vsrv.Boot(dir, vsrv.Options{AllowLabelmapSplit: true}); err != nil {
		return 1
	}
	vsrv.SingleThreaded = true
	return vlib.ServeJobs(func(job string) string {
		var j c13Job
		json.Unmarshal([]byte(job), &j)
		var res c13Result
		replay := func(n int) *c13World {
			w, err := c13NewWorld()
			if err != nil {
				res.Viol = append(res.Viol, c13Viol{Key: "harness:world", What: err.Error()})
				return nil
			}
			for _, op := range j.Path[:n] {
				w.apply(op)
			}
			return w
		}
		if !j.Expand {
			// confirmation / initial-state run: replay all but the last operation, then evaluate the last step
			if len(j.Path) == 0 {
				w := replay(0)
				if w != nil {
					for _, v := range w.check() {
						v.Key = "init/" + v.Key
						res.Viol = append(res.Viol, v)
					}
					res.Reads = w.reads
				}
				return c13JSON(res)
			}
			w := replay(len(j.Path) - 1)
			if w != nil {
				_, _, vs := w.step(j.Path[len(j.Path)-1])
				for _, v := range vs {
					v.Path = j.Path
					res.Viol = append(res.Viol, v)
				}
				res.Reads = w.reads
			}
			return c13JSON(res)
		}
		w := replay(len(j.Path))
		if w == nil {
			return c13JSON(res)
		}
		classes := map[string]bool{}
		for opi, op := range c13Alphabet(w.vers[w.leaf], len(w.vers), j.Thorough) {
			if j.Parts > 1 && opi%j.Parts != j.Part {
				continue
			}
			path := append(append([]c13Op{}, j.Path...), op)
			before := w.canon()
			t0 := time.Now()
			code, class, vs := w.step(op)
			if getenv("C13_TRACE") != "" {
				fmt.Fprintf(os.Stderr, "TRACE %s class=%s code=%d viols=%d terminal=%v %.0fms\n", op, class, code, len(vs), w.terminal, time.Since(t0).Seconds()*1000)
				for _, v := range vs {
					fmt.Fprintf(os.Stderr, "   VIOL %s -- %s\n", v.Key, trunc(v.What, 700))
				}
			}
			res.Trans++
			classes[class] = true
			for _, v := range vs {
				v.Path = path
				res.Viol = append(res.Viol, v)
			}
			if code >= 400 {
				res.Refused++
			}
			after := w.canon()
			// a successor is extended only if it is a new model state reached without any violation
			res.Succ = append(res.Succ, c13Succ{Op: op, Canon: after, Code: code, Class: class, Final: after == before || len(vs) > 0 || w.terminal})
			if after != before || len(vs) > 0 || code < 400 || w.terminal {
				res.Reads += w.reads
				w = replay(len(j.Path))
				if w == nil {
					break
				}
			}
		}
		if w != nil {
			res.Reads += w.reads
		}
		for c := range classes {
			res.Classes = append(res.Classes, c)
		}
		return c13JSON(res)
	})
}

// ---------------- driver ----------------

func runC13(c *vlib.Ctx) {
	depth := 2
	if c.Thorough() {
		depth = 3
	}
	vlib.JobTimeout = 20 * time.Minute
	const perRound = 16 * 20 // jobs per pool round (a job creates about 30 repos): a worker process creates a bounded number of repos before it is replaced
	pool := func(jobs []string) []vlib.PoolResult {
		var out []vlib.PoolResult
		for lo := 0; lo < len(jobs); lo += perRound {
			hi := lo + perRound
			if hi > len(jobs) {
				hi = len(jobs)
			}
			out = append(out, vlib.Pool("c13", nil, 16, jobs[lo:hi])...)
		}
		return out
	}
	mk := func(p []c13Op, expand bool) string {
		b, _ := json.Marshal(c13Job{Path: p, Expand: expand, Thorough: c.Thorough()})
		return string(b)
	}
	type cand struct {
		v    c13Viol
		path []c13Op
	}
	cands := map[string]cand{}
	var candOrder []string
	note := func(v c13Viol) {
		if v.Key == "harness:quiesce-timeout" {
			c.Cap(v.What) // not a verdict about the property
			return
		}
		if _, ok := cands[v.Key]; !ok {
			cands[v.Key] = cand{v, v.Path}
			candOrder = append(candOrder, v.Key)
		}
	}
	handle := func(r vlib.PoolResult, path []c13Op) (res c13Result, ok bool) {
		if r.Died {
			if r.TimedOut {
				c.Cap(fmt.Sprintf("watchdog while working on %v", path))
			} else {
				c.Violate("worker-death", fmt.Sprintf("worker died while working on history %v: %s", path, tail(r.Stderr, 1500)), map[string]interface{}{"history": path})
			}
			return res, false
		}
		if err := json.Unmarshal([]byte(r.Out), &res); err != nil {
			c.Violate("harness:result", trunc(r.Out, 300), nil)
			return res, false
		}
		return res, true
	}

	var states, transitions, reads int64
	// the initial state itself
	if res, ok := handle(pool([]string{mk(nil, false)})[0], nil); ok {
		reads += int64(res.Reads)
		for _, v := range res.Viol {
			note(v)
		}
	}
	seen := map[string]bool{}
	classes := map[string]bool{}
	frontier := [][]c13Op{{}}
	for lvl := 1; lvl <= depth && len(frontier) > 0; lvl++ {
		// Depth 3 (thorough) runs under a wall-clock budget: the depth-2 frontier is expanded in a fixed strided order (a
		// deterministic permutation, so a prefix spans all first operations) and the run is reported as capped when the
		// budget ends. Depths 1 and 2 are always complete.
		var deadline time.Time
		if lvl >= 3 {
			budget := 60 * time.Minute
			if v, err := time.ParseDuration(getenv("VERIF_C13_D3_BUDGET")); err == nil {
				budget = v
			}
			deadline = time.Now().Add(budget)
			stride := 7919
			for len(frontier)%stride == 0 {
				stride += 2
			}
			perm := make([][]c13Op, len(frontier))
			for i := range frontier {
				perm[i] = frontier[(i*stride)%len(frontier)]
			}
			frontier = perm
		}
		// the alphabet of one state (about 100 operations) is split over several jobs so that 16 workers stay busy
		parts := 4
		if len(frontier) < 8 {
			parts = 16
		}
		var next [][]c13Op
		expanded := 0
		const statesPerCall = 80
		for lo := 0; lo < len(frontier); lo += statesPerCall {
			if !deadline.IsZero() && time.Now().After(deadline) {
				c.Cap(fmt.Sprintf("depth %d: wall-clock budget reached after expanding %d of %d depth-%d states (strided order); all histories of length <= %d fully covered", lvl, expanded, len(frontier), lvl-1, lvl-1))
				break
			}
			hi := lo + statesPerCall
			if hi > len(frontier) {
				hi = len(frontier)
			}
			var jobs []string
			var owner []int
			for i := lo; i < hi; i++ {
				for k := 0; k < parts; k++ {
					b, _ := json.Marshal(c13Job{Path: frontier[i], Expand: true, Thorough: c.Thorough(), Part: k, Parts: parts})
					jobs = append(jobs, string(b))
					owner = append(owner, i)
				}
			}
			results := pool(jobs)
			expanded = hi
			for ji, r := range results {
				i := owner[ji]
				res, ok := handle(r, frontier[i])
				if !ok {
					continue
				}
				transitions += int64(res.Trans)
				reads += int64(res.Reads)
				c.Eval(int64(res.Trans))
				for _, v := range res.Viol {
					note(v)
				}
				for _, cl := range res.Classes {
					classes[cl] = true
				}
				for _, s := range res.Succ {
					c.Outcome(fmt.Sprintf("%s:%d", s.Class, s.Code/100))
					if s.Final {
						continue
					}
					if !seen[s.Canon] {
						seen[s.Canon] = true
						states++
						c.Nontrivial(s.Canon)
						next = append(next, append(append([]c13Op{}, frontier[i]...), s.Op))
					}
				}
			}
		}
		c.Set(fmt.Sprintf("frontier_depth%d", lvl), len(frontier))
		c.Set(fmt.Sprintf("expanded_depth%d", lvl), expanded)
		frontier = next
	}

	// Bulk ingestion: three adjacent blocks of 520 elements each (1560 elements, 2340 tag entries) posted with POST blocks
	// and rebuilt by each reload mode; the low-memory reload flushes its tag and label buffers every 1000 entries, so one
	// tag and (after merging body 2 into body 1) one body are spread over several flushes. Every prefix is its own job.
	{
		merge := c13Op{K: "merge", A: 1, B: []uint64{2}}
		var paths [][]c13Op
		for _, m := range []string{"low", "mem", "check"} {
			bulk := c13Op{K: "bulkblocks", V: m}
			paths = append(paths, []c13Op{bulk}, []c13Op{merge, bulk})
			for _, m2 := range []string{"low", "mem", "check"} {
				paths = append(paths, []c13Op{merge, bulk, {K: "reload", V: m2}})
			}
			paths = append(paths, []c13Op{merge, bulk, {K: "cleave", A: 1, B: []uint64{2}}}, []c13Op{merge, bulk, {K: "del", P: 0}},
				[]c13Op{merge, bulk, {K: "move", P: 0, Q: 5}})
		}
		var jobs []string
		for _, p := range paths {
			jobs = append(jobs, mk(p, false))
		}
		for i, r := range pool(jobs) {
			res, ok := handle(r, paths[i])
			if !ok {
				continue
			}
			transitions++
			states++
			reads += int64(res.Reads)
			c.Eval(1)
			c.Nontrivial("bulk:" + fmt.Sprint(paths[i]))
			for _, v := range res.Viol {
				note(v)
			}
		}
		c.Set("bulk_histories", len(paths))
	}

	// every failing class must reproduce from a fresh repo three times out of three
	if len(candOrder) > 0 {
		var jobs []string
		for _, k := range candOrder {
			for n := 0; n < 3; n++ {
				jobs = append(jobs, mk(cands[k].path, false))
			}
		}
		results := pool(jobs)
		for i, k := range candOrder {
			hits := 0
			for n := 0; n < 3; n++ {
				res, ok := handle(results[3*i+n], cands[k].path)
				if !ok {
					continue
				}
				for _, v := range res.Viol {
					if v.Key == k {
						hits++
						break
					}
				}
			}
			if getenv("C13_DUMP") != "" {
				fmt.Fprintf(os.Stderr, "DUMP %d/3 %s | %v | %s\n", hits, k, cands[k].path, trunc(cands[k].v.What, 600))
			}
			if hits == 3 {
				c.Violate(k, cands[k].v.What+" | history: "+fmt.Sprint(cands[k].path), map[string]interface{}{"history": cands[k].path})
			} else {
				c.Cap(fmt.Sprintf("failure %q seen once but reproduced only %d/3 times from a fresh repo; not reported (history %v)", k, hits, cands[k].path))
			}
		}
	}
	if len(candOrder) > 0 {
		keys := append([]string{}, candOrder...)
		sort.Strings(keys)
		c.Set("failing_keys", keys)
	}
	c.Set("states", states+1)
	c.Set("transitions", transitions)
	c.Set("traces_validated_against_impl", transitions)
	c.Set("read_requests", reads)
	c.Set("operation_classes", len(classes))
	c.Set("bound", fmt.Sprintf("BFS depth %d over the full alphabet (about 100 operations per state) from a 3-element initial state; 9 menu positions, 3 tags, 4 kinds, at most 2 versions; depth 3 under a wall-clock budget in strided order", depth))
	c.Set("rule", "state = reference model (map position->element, supervoxel array and supervoxel->body mapping, per version) reached by a history; transition = one real request (POST blocks: plus reload) on a fresh repo after replaying the prefix, followed by runtime-level quiescence; after every transition every view of every version (all-elements, blocks, scan, elements/<size>/<offset>, tag/<t>, label/<l>, both with and without relationships; labelsz count, counts, top, threshold for every index type) is compared with the model; states with equal model are merged (every merged state has passed the full comparison, so merging can only hide a hidden-state defect, never create an alarm); a history with a violation is not extended")
	c.Sample(map[string]interface{}{"history": "move(@0,@3) cleave(1[4])", "meaning": "move the PreSyn element that is linked with the element at (16,8,8) from body 1 across a block border onto body 3, then cleave supervoxel 4 off body 1", "checked": "partner's relationship now points at (26,5,5); tag/t1, label/1, label/3, label/<cleaved>, blocks, elements boxes, labelsz counts/top/threshold of every body"})
	c.Assume("relationships in the alphabet are always mutual (A references B and B references A); what a move or delete does to a one-sided reference is not prescribed by the property")
	c.Assume("a move onto an occupied position may be refused without effect or may replace the occupant; such states are checked but not extended")
	c.Assume("POST blocks is followed by POST reload on the annotation instance and then on the labelsz instance (block ingestion and annotation reload do not notify subscribers by design)")
	c.Assume("body-of-position is taken from the labelmap's own GET labels answer and cross-checked against the reference label model")
}
