// vinstr rewrites DVID packages for the controlled scheduler: `import "sync"` becomes verif/vsync and every `go f(x)`
// becomes vsync.Go(func(){ f(x) }) with the arguments evaluated at the go statement. Output: instrumented copies plus an
// overlay map (JSON on stdout: original path -> instrumented path). A construct it cannot rewrite is a hard error.
//
// usage: vinstr <outdir> <pkgdir>...
package main

import (
	"bytes"
	"encoding/json"
	"fmt"
	"go/ast"
	"go/format"
	"go/parser"
	"go/token"
	"os"
	"path/filepath"
	"strconv"
	"strings"
)

const vsPath = "verif/vsync"

func main() {
	out := os.Args[1]
	overlay := map[string]string{}
	stats := map[string]int{}
	for _, dir := range os.Args[2:] {
		files, _ := filepath.Glob(filepath.Join(dir, "*.go"))
		for _, f := range files {
			if strings.HasSuffix(f, "_test.go") {
				continue
			}
			src, err := os.ReadFile(f)
			if err != nil {
				fatal(err)
			}
			fset := token.NewFileSet()
			file, err := parser.ParseFile(fset, f, src, parser.ParseComments)
			if err != nil {
				fatal(fmt.Errorf("%s: %v", f, err))
			}
			changed := false
			// 1. import "sync" -> sync "verif/vsync"
			for _, imp := range file.Imports {
				if imp.Path.Value == `"sync"` {
					if imp.Name != nil && imp.Name.Name != "sync" {
						fatal(fmt.Errorf("%s: renamed sync import %q not supported", f, imp.Name.Name))
					}
					imp.Name = ast.NewIdent("sync")
					imp.Path.Value = strconv.Quote(vsPath)
					changed = true
					stats["sync-imports"]++
				}
			}
			// 2. go statements
			n := 0
			rewrite := func(list []ast.Stmt) {
				for i, s := range list {
					if g, ok := s.(*ast.GoStmt); ok {
						list[i] = rewriteGo(g, &n)
					}
					if l, ok := s.(*ast.LabeledStmt); ok {
						if g, ok := l.Stmt.(*ast.GoStmt); ok {
							l.Stmt = rewriteGo(g, &n)
						}
					}
				}
			}
			ast.Inspect(file, func(nd ast.Node) bool {
				switch b := nd.(type) {
				case *ast.BlockStmt:
					rewrite(b.List)
				case *ast.CaseClause:
					rewrite(b.Body)
				case *ast.CommClause:
					rewrite(b.Body)
				case *ast.IfStmt:
					if g, ok := b.Else.(*ast.GoStmt); ok {
						_ = g
						fatal(fmt.Errorf("%s: go statement as else branch not supported", f))
					}
				}
				return true
			})
			// 3. storage/badger only: a scheduling point before every statement that starts or commits an engine transaction
			// (X.Update, X.View, X.Flush, X.Commit), so that an operation made of several transactions can be interleaved
			// between them. The first transaction after the store wrapper's own point does not yield again (vsync.TxnPoint).
			if strings.HasSuffix(filepath.ToSlash(dir), "storage/badger") {
				tp := 0
				ast.Inspect(file, func(nd ast.Node) bool {
					switch b := nd.(type) {
					case *ast.BlockStmt:
						b.List = addTxnPoints(b.List, &tp)
					case *ast.CaseClause:
						b.Body = addTxnPoints(b.Body, &tp)
					case *ast.CommClause:
						b.Body = addTxnPoints(b.Body, &tp)
					}
					return true
				})
				stats["txn-points"] += tp
				n += tp
			}
			// any go statement left (in a position not handled above) is a hard error
			ast.Inspect(file, func(nd ast.Node) bool {
				if g, ok := nd.(*ast.GoStmt); ok {
					fatal(fmt.Errorf("%s:%d: go statement in an unsupported position", f, fset.Position(g.Pos()).Line))
				}
				return true
			})
			if n > 0 {
				changed = true
				stats["go-statements"] += n
				// add the import  __vs "verif/vsync"
				spec := &ast.ImportSpec{Name: ast.NewIdent("__vs"), Path: &ast.BasicLit{Kind: token.STRING, Value: strconv.Quote(vsPath)}}
				decl := &ast.GenDecl{Tok: token.IMPORT, Specs: []ast.Spec{spec}}
				file.Decls = append([]ast.Decl{decl}, file.Decls...)
				file.Imports = append(file.Imports, spec)
			}
			if !changed {
				continue
			}
			var buf bytes.Buffer
			if err := format.Node(&buf, fset, file); err != nil {
				fatal(fmt.Errorf("%s: %v", f, err))
			}
			rel := strings.TrimPrefix(f, repoRoot()+"/")
			dst := filepath.Join(out, strings.ReplaceAll(rel, "/", "__")+".txt")
			os.MkdirAll(filepath.Dir(dst), 0755)
			if err := os.WriteFile(dst, buf.Bytes(), 0644); err != nil {
				fatal(err)
			}
			overlay[f] = dst
			stats["files"]++
		}
	}
	json.NewEncoder(os.Stdout).Encode(map[string]interface{}{"Replace": overlay, "stats": stats})
}

// addTxnPoints inserts __vs.TxnPoint() before every statement of the list whose own expressions (not its nested blocks or
// function literals) call a method named Update, View, Flush or Commit.
func addTxnPoints(list []ast.Stmt, n *int) []ast.Stmt {
	var out []ast.Stmt
	for _, s := range list {
		if kind := stmtCallsTxn(s); kind != "" {
			*n++
			out = append(out, &ast.ExprStmt{X: &ast.CallExpr{Fun: &ast.SelectorExpr{X: ast.NewIdent("__vs"), Sel: ast.NewIdent("TxnPointKind")},
				Args: []ast.Expr{&ast.BasicLit{Kind: token.STRING, Value: strconv.Quote(kind)}}}})
		}
		out = append(out, s)
	}
	return out
}

func stmtCallsTxn(s ast.Stmt) string {
	if _, ok := s.(*ast.BlockStmt); ok {
		return ""
	}
	found := ""
	ast.Inspect(s, func(nd ast.Node) bool {
		if nd == nil || found != "" {
			return false
		}
		switch x := nd.(type) {
		case *ast.BlockStmt, *ast.FuncLit:
			return false
		case *ast.CallExpr:
			if sel, ok := x.Fun.(*ast.SelectorExpr); ok {
				switch sel.Sel.Name {
				case "Update", "View", "Flush", "Commit":
					found = sel.Sel.Name
					return false
				}
			}
		}
		return true
	})
	return found
}

func fatal(err error) {
	fmt.Fprintln(os.Stderr, "vinstr:", err)
	os.Exit(1)
}

func isConst(e ast.Expr) bool {
	switch t := e.(type) {
	case *ast.BasicLit:
		return true
	case *ast.Ident:
		return t.Name == "nil" || t.Name == "true" || t.Name == "false"
	case *ast.ParenExpr:
		return isConst(t.X)
	case *ast.UnaryExpr:
		return t.Op != token.AND && t.Op != token.ARROW && isConst(t.X)
	case *ast.BinaryExpr:
		return isConst(t.X) && isConst(t.Y)
	}
	return false
}

// rewriteGo turns `go f(a, b)` into `{ __f := f; __a0 := a; __a1 := b; __vs.Go(func() { __f(__a0, __a1) }) }`.
func rewriteGo(g *ast.GoStmt, n *int) ast.Stmt {
	*n++
	call := g.Call
	var stmts []ast.Stmt
	fun := call.Fun
	if _, isLit := fun.(*ast.FuncLit); !isLit {
		id := ast.NewIdent("__f")
		stmts = append(stmts, &ast.AssignStmt{Lhs: []ast.Expr{id}, Tok: token.DEFINE, Rhs: []ast.Expr{fun}})
		fun = id
	}
	args := make([]ast.Expr, len(call.Args))
	for i, a := range call.Args {
		if isConst(a) {
			args[i] = a
			continue
		}
		id := ast.NewIdent(fmt.Sprintf("__a%d", i))
		stmts = append(stmts, &ast.AssignStmt{Lhs: []ast.Expr{id}, Tok: token.DEFINE, Rhs: []ast.Expr{a}})
		args[i] = id
	}
	inner := &ast.CallExpr{Fun: fun, Args: args, Ellipsis: call.Ellipsis}
	lit := &ast.FuncLit{Type: &ast.FuncType{Params: &ast.FieldList{}}, Body: &ast.BlockStmt{List: []ast.Stmt{&ast.ExprStmt{X: inner}}}}
	goCall := &ast.CallExpr{Fun: &ast.SelectorExpr{X: ast.NewIdent("__vs"), Sel: ast.NewIdent("Go")}, Args: []ast.Expr{lit}}
	stmts = append(stmts, &ast.ExprStmt{X: goCall})
	return &ast.BlockStmt{List: stmts}
}

func repoRoot() string {
	if r := os.Getenv("VERIF_REPO"); r != "" {
		return r
	}
	return "/repo"
}
