// vcheck runs one property check: vcheck <ID> --tier quick|thorough [--replay file]
// or an internal worker: vcheck worker <name> [args...]
package main

import (
	"fmt"
	"os"
	"sort"
	"syscall"

	_ "verif/checks"
	"verif/vlib"
)

func main() {
	if len(os.Args) < 2 {
		usage()
	}
	if os.Args[1] == "worker" {
		if len(os.Args) < 3 {
			usage()
		}
		w, ok := vlib.Workers[os.Args[2]]
		if !ok {
			fmt.Fprintf(os.Stderr, "unknown worker %q\n", os.Args[2])
			os.Exit(2)
		}
		// safety net (not an oracle): a worker whose server code runs away (a seeded change can make DVID walk a cyclic
		// DAG for ever) dies at 32 GiB of address space instead of exhausting the machine; the race-detector build needs
		// terabytes of shadow address space and is exempted by its caller
		if os.Getenv("VERIF_NO_ASLIMIT") == "" {
			lim := syscall.Rlimit{Cur: 32 << 30, Max: 32 << 30}
			syscall.Setrlimit(syscall.RLIMIT_AS, &lim)
		}
		os.Exit(w(os.Args[3:]))
	}
	id := os.Args[1]
	tier := os.Getenv("VERIF_TIER")
	if tier == "" {
		tier = "quick"
	}
	replay := ""
	for i := 2; i < len(os.Args); i++ {
		switch os.Args[i] {
		case "--tier":
			i++
			tier = os.Args[i]
		case "--replay":
			i++
			replay = os.Args[i]
		}
	}
	if tier != "quick" && tier != "thorough" {
		usage()
	}
	ck, ok := vlib.Registry[id]
	if !ok {
		usage()
	}
	vlib.CleanupOnSignal()
	os.Setenv("VERIF_TIER_RUNNING", tier) // inherited by the workers: decides where scratch directories go (vlib.ScratchBase)
	c := vlib.NewCtx(id, tier, ck.Level)
	c.ReplayFile = replay
	if replay != "" && !ownReplay[id] {
		if err := c.LoadReplayKey(); err != nil {
			fmt.Fprintln(os.Stderr, "replay:", err)
			os.Exit(2)
		}
	}
	ck.Run(c)
	os.Exit(c.Finish())
}

// ownReplay: checks that re-execute the recorded history / schedule / case alone; the others re-run their enumeration and
// report only the recorded class.
var ownReplay = map[string]bool{"C11": true, "C14": true, "C16": true, "C17": true}

func usage() {
	var ids []string
	for id := range vlib.Registry {
		ids = append(ids, id)
	}
	sort.Strings(ids)
	fmt.Fprintf(os.Stderr, "usage: vcheck <ID> --tier quick|thorough [--replay file]\nchecks: %v\n", ids)
	os.Exit(2)
}
