#!/bin/bash
# seed_results_rounds.sh [parallel] [rounds]: run the seeded changes of the later rounds (default "r3 r4") against the check that
# is expected to report each of them (quick tier, scratch copies via bin/try_patch.sh) and write seeded/RESULTS-<rounds>.md.
# A seed whose own property's check does not see it by design is run against the check named in seeded/<ID>/caught_by.
cd "$(dirname "$0")/.."
export GOFLAGS=-mod=mod GOPROXY=off GOSUMDB=off GOTOOLCHAIN=local
P="${1:-3}"; ROUNDS="${2:-r3 r4}"
W=$(mktemp -d /tmp/seedres-XXXX)
for r in $ROUNDS; do for d in seeded/C??-$r; do [ -f "$d/patch.diff" ] || continue
  s=$(basename $d); id=${s%%-*}; chk=$id; env=""
  if [ -f "$d/caught_by" ]; then chk=$(awk '{print $1}' $d/caught_by); env=$(awk '{print $2}' $d/caught_by); fi
  echo "$s $chk ${env:--}"; done; done > $W/list
one() {
  s=$1; chk=$2; env=$3; W=$4
  if [ "$env" != "-" ]; then export $env; fi
  r=$(bin/try_patch.sh /verif/seeded/$s/patch.diff $chk quick 2>&1)
  rc=$(echo "$r" | grep -o "exit=[0-9]*" | tail -1)
  n=$(echo "$r" | grep -o "([0-9]* violation lines)" | tail -1)
  key=$(echo "$r" | grep "^VIOLATION" | head -1 | grep -o 'key="[^"]*"' | head -1)
  echo "| $s | $chk | $rc | $n | $key |" > $W/$s.row
}
export -f one
cat $W/list | xargs -P $P -L 1 bash -c 'one $0 $1 $2 '"$W"
{
echo "# Seeded changes of rounds: $ROUNDS vs. checks (quick tier)"
echo
echo "Produced by bin/seed_results_rounds.sh against /repo HEAD $(git -C /repo log --format=%h -1) and /verif $(git log --format=%h -1). exit=1 with a VIOLATION line = caught."
echo
echo "| seed | check run | exit | violation lines | first violation key |"
echo "|---|---|---|---|---|"
cat $W/*.row | sort
} > "seeded/RESULTS-$(echo $ROUNDS | tr " " "-").md"
rm -rf $W
