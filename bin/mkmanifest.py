#!/usr/bin/env python3
# Regenerates MANIFEST.json from the table below. Properties without an entry are listed under not_applicable.
import json
E = {}  # id -> (engine, level, text, note, technique, ref)
E["C15"]=("venum","exploration",
 "Bounded-exhaustive enumeration of the real SerializeData/DeserializeData over explicit alphabets: every format x checksum x payload menu round-trips; every single-bit flip, byte substitution and truncation of small serialised values; every byte string of length <= 2 and every format byte x hostile tails, in a worker process so a fatal error is observed.",
 "Trusts snappy/lz4/gzip codecs for valid streams; CRC-32 burst detection makes the 'altered payload must error' oracle exact; multi-GiB allocations from hostile size fields count only if the process dies.",
 "bounded-exhaustive input enumeration on the implementation (explicit alphabets, complete products)","DESIGN.md section 6 C15")
E["C18"]=("venum","exploration",
 "Complete per-coordinate sweeps of the ZYX key codec (thorough: all 2^32 values per coordinate) with round trip and strict monotonicity, all ordered pairs of an 11^3 boundary cube for the (z,y,x) order, the packed block index over its whole documented range per field, and every ordered set of <=3 non-overlapping runs of a 12x3-row universe through Normalize/Partition/Split/FitToBounds/(un)marshal against a voxel-set reference; ROI span sets through the HTTP API against membership computed from the spans.",
 "Reference = explicit voxel sets and interval arithmetic; run sets larger than 3 runs and universes wider than 12 voxels are not covered.",
 "bounded-exhaustive input enumeration on the implementation (complete products over stated alphabets)","DESIGN.md section 6 C18")
NA_REASON = "check not built yet (work in progress; see DESIGN.md section 6 for the plan)"
import os
more = os.path.join(os.path.dirname(__file__), "manifest_entries.json")
if os.path.exists(more):
    for k, v in json.load(open(more)).items():
        E[k] = tuple(v)
checks=[]
engines={}
for pid in sorted(E):
    eng,level,text,note,tech,ref = E[pid]
    engines.setdefault(eng,[]).append(pid)
    checks.append({"property_id":pid,"quick_cmd":f"./bin/vcheck {pid} --tier quick","thorough_cmd":f"./bin/vcheck {pid} --tier thorough",
      "evidence_file":f"/verif/evidence/{pid}.json","replay_cmd_template":f"./bin/vcheck {pid} --replay {{path}}","engine":eng,
      "level_claimed":{"category":level,"text":text,"design_ref":ref},"level_note":note,"technique":tech})
props=[json.loads(l)['id'] for l in open('/verif/properties.jsonl')]
na=[{"property_id":p,"reason":NA_REASON} for p in props if p not in E]
kinds={"venum":"bounded-exhaustive input enumerators over the real package functions",
       "vhist":"explicit-state exploration of operation histories through the real HTTP handlers / package APIs against reference models",
       "vsched":"controlled scheduler: exhaustive preemption-bounded interleavings of real request goroutines",
       "vcrash":"write-journal crash-state enumeration with fresh-process recovery"}
m={"version":1,"setup_cmd":"bash /verif/bin/setup.sh",
 "hooks":{"guard":"verif","enable":"go build -tags 'badger verif' (instrumentation is injected at check time with -overlay; no hook sources are committed to /repo)","baseline_off_cmd":"cd /repo && go test -vet=off -count=1 ./...","source_commits":[],"add_only":True},
 "engines":[{"name":e,"path":"/verif/harness","serves_properties":ps,"kind_free_text":kinds.get(e,e)} for e,ps in engines.items()],
 "checks":checks,"not_applicable":na,
 "notes":"All checks: ./bin/vcheck <ID> --tier quick|thorough; the wrapper rebuilds the harness against /repo's working tree on every invocation. Known findings: /verif/known_findings.jsonl."}
json.dump(m,open('/verif/MANIFEST.json','w'),indent=1)
print("checks:",[c['property_id'] for c in checks])
