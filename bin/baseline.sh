#!/bin/bash
# baseline.sh [repo]: runs the pinned test command and reports which of the 47 stable-pass tests did not pass
repo="${1:-/repo}"
export GOFLAGS=-mod=mod GOPROXY=off GOSUMDB=off GOTOOLCHAIN=local
cd "$repo" && go test -json -vet=off -count=1 -timeout 25m ./... 2>/dev/null > /tmp/baseline.$$.json
python3 - /tmp/baseline.$$.json <<'PY'
import json,sys
want=set(json.load(open('/root/.vp/BASELINE.json'))['stable_pass'])
got=set()
for l in open(sys.argv[1]):
    try: d=json.loads(l)
    except: continue
    if d.get('Action')=='pass' and d.get('Test'):
        got.add(d['Package']+'::'+d['Test'])
miss=sorted(want-got)
print(f"baseline: {len(want&got)}/{len(want)} stable-pass tests pass")
for m in miss: print("MISSING", m)
sys.exit(1 if miss else 0)
PY
rc=$?; rm -f /tmp/baseline.$$.json; exit $rc
