#!/usr/bin/env python3
"""verify_seed.py <ID> [<outdir>]: confirm a seeded change in a scratch worktree of /repo:
   patch applies, packages build, pinned 47-test suite still passes, demo fails with / passes without the change.
   Writes /verif/seeded/<ID>/{patch.diff,<demo files>,meta.json}. Scratch worktree removed afterwards."""
import json, os, re, shutil, subprocess, sys, glob
pid = sys.argv[1]
out = sys.argv[2] if len(sys.argv) > 2 else f"/tmp/wt/{pid}-out"
name = sys.argv[3] if len(sys.argv) > 3 else pid
env = dict(os.environ, GOFLAGS="-mod=mod", GOPROXY="off", GOSUMDB="off", GOTOOLCHAIN="local")
wt = f"/tmp/sv/{name}"
def sh(cmd, cwd=wt, timeout=1800):
    p = subprocess.run(cmd, shell=True, cwd=cwd, env=env, capture_output=True, text=True, timeout=timeout)
    return p.returncode, p.stdout + p.stderr
subprocess.run(f"git -C /repo worktree remove --force {wt}", shell=True, capture_output=True)
os.makedirs("/tmp/sv", exist_ok=True)
rc, o = sh(f"git -C /repo worktree add --detach {wt} HEAD", cwd="/")
assert rc == 0, o
res = {}
try:
    meta = json.load(open(f"{out}/meta.json"))
    patch = f"{out}/patch.diff"
    rc, o = sh(f"git apply --check {patch}")
    res["patch_applies"] = rc == 0
    if rc != 0:
        print("PATCH DOES NOT APPLY", o); raise SystemExit(1)
    base = set(json.load(open("/root/.vp/BASELINE.json"))["stable_pass"])
    def pinned():
        rc, o = sh("go test -vet=off -count=1 -json ./... 2>/dev/null")
        passed, failed = set(), set()
        for line in o.splitlines():
            try: e = json.loads(line)
            except Exception: continue
            if e.get("Test") and e.get("Action") == "pass": passed.add(e["Package"] + "::" + e["Test"])
            if e.get("Test") and e.get("Action") == "fail": failed.add(e["Package"] + "::" + e["Test"])
        return passed, failed
    sh(f"git apply {patch}")
    rc, o = sh("go build $(go list ./... | grep -v 'dvid$' | grep -v tests_integration) && go build -tags badger $(go list ./... | grep -v 'dvid$' | grep -v tests_integration)")
    res["builds"] = rc == 0
    if rc: print(o[-2000:])
    p, f = pinned()
    res["pinned_pass"] = len(base - p) == 0 and not (f & base)
    res["pinned_missing"] = sorted(base - p)
    # demo
    demo_place = meta.get("demo_place")
    demo_cmd = meta.get("demo_cmd")
    demos = [x for x in glob.glob(f"{out}/*_test.go") + glob.glob(f"{out}/*.go")]
    demos = sorted(set(demos))
    placed = []
    if isinstance(demo_place, str) and len(demos) == 1:
        dst = os.path.join(wt, demo_place)
        if os.path.isdir(dst) or not dst.endswith(".go"): dst = os.path.join(dst, os.path.basename(demos[0]))
        os.makedirs(os.path.dirname(dst), exist_ok=True); shutil.copy(demos[0], dst); placed.append(dst)
    else:
        print("demo placement needs attention:", demo_place, demos); res["demo_placement"] = "manual"
    cmd = demo_cmd if isinstance(demo_cmd, str) else " && ".join(demo_cmd)
    cmd = re.sub(r"cd /tmp/wt/\w+\s*&&\s*", "", cmd)
    cmd = re.sub(r"export GOFLAGS[^;]*;\s*", "", cmd)
    rc1, o1 = sh(cmd)
    res["demo_fails_with_change"] = rc1 != 0
    sh(f"git apply -R {patch}")
    rc2, o2 = sh(cmd)
    res["demo_passes_without_change"] = rc2 == 0
    res["demo_cmd"] = cmd
    if rc1 == 0: print("DEMO DID NOT FAIL WITH CHANGE\n", o1[-1500:])
    if rc2 != 0: print("DEMO FAILS WITHOUT CHANGE\n", o2[-1500:])
    ok = all(res.get(k) for k in ["patch_applies", "builds", "pinned_pass", "demo_fails_with_change", "demo_passes_without_change"])
    res["confirmed"] = ok
    if ok:
        d = f"/verif/seeded/{name}"; os.makedirs(d, exist_ok=True)
        if os.path.realpath(out) != os.path.realpath(d):
            shutil.copy(patch, f"{d}/patch.diff")
            for x in demos: shutil.copy(x, d)
        m = {"property": pid, "summary": meta.get("summary"), "needs_to_manifest": meta.get("needs_to_manifest"),
             "files_changed": meta.get("files_changed"), "demo_place": demo_place, "demo_cmd": cmd,
             "confirmed_by_main": res, "what_was_run": "scratch worktree of /repo HEAD: git apply; go build (all packages except doc-only root, with and without -tags badger); pinned suite go test -vet=off -count=1 -json ./... compared with BASELINE stable_pass; demo with change (must fail) and after git apply -R (must pass)"}
        json.dump(m, open(f"{d}/meta.json", "w"), indent=1)
    print(json.dumps(res, indent=1))
finally:
    subprocess.run(f"git -C /repo worktree remove --force {wt}", shell=True, capture_output=True)
