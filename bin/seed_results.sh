#!/bin/bash
# seed_results.sh: run every seeded change (and every mutant) against its check (quick tier) and write seeded/RESULTS.md
cd "$(dirname "$0")/.."
export GOFLAGS=-mod=mod GOPROXY=off GOSUMDB=off GOTOOLCHAIN=local
out=seeded/RESULTS.md
{
echo "# Seeded changes and mutants vs. checks (quick tier)"
echo
echo "Produced by bin/seed_results.sh against /repo HEAD $(git -C /repo log --format=%h -1): each change is applied to /repo with git apply, the check is run from a copy of /verif, the change is reverted."
echo
echo "| check | change | exit | violation lines | first violation key |"
echo "|---|---|---|---|---|"
} > $out
for d in seeded/C?? ; do
  id=$(basename $d)
  grep -q "\"$id\"" MANIFEST.json || continue
  python3 -c "import json,sys;sys.exit(0 if any(c['property_id']=='$id' for c in json.load(open('MANIFEST.json'))['checks']) else 1)" || continue
  for f in $d/patch.diff mutants/$id/*.diff; do
    [ -f "$f" ] || continue
    r=$(bin/try_patch.sh /verif/$f $id quick 2>&1)
    rc=$(echo "$r" | grep -o "exit=[0-9]*" | tail -1)
    n=$(echo "$r" | grep -o "([0-9]* violation lines)" | tail -1)
    key=$(echo "$r" | grep "^VIOLATION" | head -1 | grep -o 'key="[^"]*"' | head -1)
    echo "| $id | $f | $rc | $n | $key |" >> $out
  done
done
echo done >> /tmp/seed_results.done
