#!/bin/bash
# seed_results.sh [parallel] ["ids"] [outfile]: run every seeded change and every mutant against its check (quick tier) on scratch copies
# of /repo (bin/try_patch.sh) and write seeded/RESULTS.md
cd "$(dirname "$0")/.."
export GOFLAGS=-mod=mod GOPROXY=off GOSUMDB=off GOTOOLCHAIN=local
P="${1:-3}"
W=$(mktemp -d /tmp/seedres-XXXX)
ids="${2:-$(python3 -c "import json;print(' '.join(c['property_id'] for c in json.load(open('MANIFEST.json'))['checks']))")}"
OUT="${3:-seeded/RESULTS.md}"
for id in $ids; do
  for f in seeded/$id/patch.diff mutants/$id/*.diff; do [ -f "$f" ] && echo "$id $f"; done
done > $W/list
one() {
  id=$1; f=$2; W=$3
  r=$(bin/try_patch.sh /verif/$f $id quick 2>&1)
  rc=$(echo "$r" | grep -o "exit=[0-9]*" | tail -1)
  n=$(echo "$r" | grep -o "([0-9]* violation lines)" | tail -1)
  key=$(echo "$r" | grep "^VIOLATION" | head -1 | grep -o 'key="[^"]*"' | head -1)
  echo "| $id | $f | $rc | $n | $key |" > $W/$(echo "$id-$f" | tr '/' '_').row
}
export -f one
cat $W/list | xargs -P $P -L 1 bash -c 'one $0 $1 '"$W"
{
echo "# Seeded changes and mutants vs. checks (quick tier)"
echo
echo "Produced by bin/seed_results.sh against /repo HEAD $(git -C /repo log --format=%h -1): each change is applied to a scratch copy of /repo, the check is built from a scratch copy of /verif against it. exit=1 with a VIOLATION line = caught."
echo
echo "| check | change | exit | violation lines | first violation key |"
echo "|---|---|---|---|---|"
cat $W/*.row | sort
} > "$OUT"
rm -rf $W
echo done > /tmp/seed_results.done
