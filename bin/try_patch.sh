#!/bin/bash
# try_patch.sh <patch.diff> <CHECK-ID> [tier]: run a check against /repo + a change WITHOUT touching /repo:
# the change is applied to a scratch copy of /repo's working tree and the check is built from a scratch copy of /verif.
set -u
patch="$1"; id="$2"; tier="${3:-quick}"
S=$(mktemp -d /tmp/verif-try-XXXXXX)
trap 'rm -rf "$S"' EXIT
rsync -a --exclude .git /repo/ "$S/repo/"
( cd "$S/repo" && git apply "$patch" ) || { echo "patch does not apply"; exit 2; }
export VERIF_DIR="$S/verif"; mkdir -p "$VERIF_DIR/.build"
cp -r /verif/harness /verif/bin /verif/overlay /verif/known_findings.jsonl "$VERIF_DIR/" 2>/dev/null
out=$(VERIF_REPO="$S/repo" timeout 3600 "$VERIF_DIR/bin/vcheck" "$id" --tier "$tier" 2>&1); rc=$?
echo "$out" | grep -E "^VIOLATION|^$id tier|BUILD FAILED" | cut -c1-400 | head -8
echo "exit=$rc  ($(echo "$out" | grep -c '^VIOLATION') violation lines)"
