#!/bin/bash
# try_patch.sh <patch.diff> <CHECK-ID> [tier]: apply a change to /repo, run the check, undo the change. Prints the verdict.
set -u
patch="$1"; id="$2"; tier="${3:-quick}"
cd /repo || exit 2
if [ -n "$(git status --porcelain)" ]; then echo "/repo not clean"; exit 2; fi
git apply "$patch" || { echo "patch does not apply"; exit 2; }
export VERIF_DIR=/tmp/verif-try-$$; mkdir -p $VERIF_DIR; cp -r /verif/harness /verif/bin /verif/overlay /verif/known_findings.jsonl $VERIF_DIR/ 2>/dev/null
mkdir -p $VERIF_DIR/.build
out=$(VERIF_DIR=$VERIF_DIR timeout 3600 $VERIF_DIR/bin/vcheck "$id" --tier "$tier" 2>&1); rc=$?
git -C /repo checkout -- . 
echo "$out" | grep -E "^VIOLATION|^KNOWN-FINDING|^$id tier|BUILD FAILED" | cut -c1-400 | head -8
echo "exit=$rc  ($(echo "$out" | grep -c '^VIOLATION') violation lines)"
rm -rf $VERIF_DIR
