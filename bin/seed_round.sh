#!/bin/bash
# seed_round.sh <ID> <round> [check]: confirm the sub-agent's change /tmp/wt/<ID>-<round>-out in a scratch worktree
# (bin/verify_seed.py -> seeded/<ID>-<round>/) and run the quick check against it (bin/try_patch.sh, scratch copies only).
id="$1"; r="$2"; chk="${3:-$1}"
cd "$(dirname "$0")/.."
export GOFLAGS=-mod=mod GOPROXY=off GOSUMDB=off GOTOOLCHAIN=local
python3 bin/verify_seed.py "$id" "/tmp/wt/$id-$r-out" "$id-$r" > "/tmp/verify_${r}_$id.log" 2>&1
grep -q '"confirmed": true' "/tmp/verify_${r}_$id.log" || { echo "$id-$r NOT CONFIRMED (see /tmp/verify_${r}_$id.log)"; tail -15 "/tmp/verify_${r}_$id.log"; exit 3; }
echo "$id-$r confirmed"
bin/try_patch.sh "/verif/seeded/$id-$r/patch.diff" "$chk" quick 2>&1 | tee "/tmp/try_${r}_$id.log" | tail -4
