#!/bin/bash
# Builds the harness offline from files on disk and pre-warms the Go build cache.
set -e
export GOFLAGS=-mod=mod GOPROXY=off GOSUMDB=off GOTOOLCHAIN=local
export VERIF_DIR="${VERIF_DIR:-$(cd "$(dirname "${BASH_SOURCE[0]}")/.." && pwd)}"
cd "$VERIF_DIR/harness"
mkdir -p "$VERIF_DIR/.build" "$VERIF_DIR/evidence" "$VERIF_DIR/replays"
"$VERIF_DIR/bin/vcheck" >/dev/null 2>&1 || true   # builds (prints usage, exit 2)
test -x "$VERIF_DIR/.build/vcheck"
# pre-warm the scheduler-instrumented build used by C04 (engine-transaction kill points), C11 and C12; the checks rebuild
# it from the working tree anyway, so a failure here is not fatal
"$VERIF_DIR/bin/vcheck" --build-sched >/dev/null 2>&1 || true
echo "setup ok"
