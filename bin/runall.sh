#!/bin/bash
# runall.sh [tier] ["ids"]: run every registered check (or the listed ones) once, print one line per check (exit code, wall, result line)
tier="${1:-quick}"
only="${2:-}"
cd "$(dirname "$0")/.."
export GOFLAGS=-mod=mod GOPROXY=off GOSUMDB=off GOTOOLCHAIN=local
for id in ${only:-$(python3 -c "import json;print(' '.join(c['property_id'] for c in json.load(open('MANIFEST.json'))['checks']))")}; do
  s=$(date +%s)
  out=$(bin/vcheck $id --tier $tier 2>&1); rc=$?
  e=$(date +%s)
  echo "$id rc=$rc t=$((e-s))s viol=$(echo "$out" | grep -c '^VIOLATION') known=$(echo "$out" | grep -c '^KNOWN-FINDING') :: $(echo "$out" | grep "^$id tier" | cut -c1-160)"
done
